// Package c04: fixed-size array accesses are in bounds and hit the indexed element.
// index-definition pattern x index value x array shape x access form, complete product;
// accepted programs are run natively and compared with the reference interpreter
// (an access outside [-N, N) must stop with a panic); rejection is always allowed.
package c04

import (
	"fmt"
	"os"
	"path/filepath"
	"strings"

	"compiler/verifh/fe"
	"compiler/verifh/fl"
	"compiler/verifh/prog"
	"compiler/verifh/vl"
)

var patterns = []string{"literal", "const", "let", "let-reassigned-before", "let-reassigned-after", "if-one-branch-taken", "if-one-branch-not-taken",
	"if-both-branches", "match-arm", "while-increment", "compound-add", "incdec", "param", "func-result", "neg-div", "neg-rem", "struct-field", "via-ref",
	"let-shadowing-block", "reassigned-in-loop-after", "reassigned-in-for-after", "catch-handler-not-run", "closure-sees-later-value",
	// the access sits INSIDE one alternative of a construct whose other alternative (earlier or
	// later in the source, not executed) assigns the index
	"match-later-arm", "match-earlier-arm", "else-after-then-assign", "then-before-else-assign", "elseif-middle",
	// index expressions that go through a narrowing cast (the value wraps) or a widening one
	"cast-wrap-u8", "cast-wrap-i8", "cast-widen",
	// the index changes between two iterations of a loop, but not by an assignment to it:
	// through a mutable reference, or in a callee that was handed one
	"ref-write-in-loop-after", "refarg-in-loop-after", "ref-write-in-for-after",
	// the index is a parameter (nothing is known about it); a sibling branch that is not executed
	// assigns it a literal
	"param-sibling-lit"}
var accesses = []string{"read", "write", "compound-write", "read-twice", "borrow-read", "field-read", "field-write", "optional-init", "arg", "return"}

type spec struct {
	pat, acc string
	n        int
	k        int64 // value the index has at the moment of the access
	elem     string
}

func (s spec) id() string {
	return fmt.Sprintf("C04/%s/%s/N%d/%s/k%d", s.pat, s.acc, s.n, s.elem, s.k)
}

func i32(v int64) fl.Expr { return fl.L(fl.I32, v) }

// struct element kinds: 16 bytes (a power of two), 12 and 24 bytes (even, not a power of two:
// index scaling cannot be a single shift), 9 -> 16 with padding
var structKinds = map[string][]fl.Field{
	"struct": {{"A", fl.I32}, {"B", fl.I64}},
	"s12":    {{"A", fl.I32}, {"B", fl.I32}, {"C", fl.I32}},
	"s24":    {{"A", fl.I64}, {"B", fl.I64}, {"C", fl.I8}},
	"s6":     {{"A", fl.I16}, {"B", fl.I16}, {"C", fl.I16}},
}

// build constructs the program; ok=false if the combination does not apply.
func build(s spec, sfx string) (*fl.Program, bool) {
	p := &fl.Program{}
	sf, isStruct := structKinds[s.elem]
	if fieldAcc := s.acc == "field-read" || s.acc == "field-write"; fieldAcc != isStruct && !(isStruct && s.acc == "write") {
		return nil, false
	}
	var et fl.Type = fl.I32
	var st *fl.TStruct
	switch s.elem {
	case "i8":
		et = fl.I8
	case "i64":
		et = fl.I64
	}
	if isStruct {
		st = &fl.TStruct{Name: "El" + sfx, Fields: sf}
		p.Structs = append(p.Structs, st)
		et = st
	}
	elemLit := func(j int) fl.Expr {
		v := int64(10 * (j + 1))
		if isStruct {
			return elemWith(et, st, v)
		}
		return fl.L(et.(fl.TInt), v)
	}
	var elems []fl.Expr
	for j := 0; j < s.n; j++ {
		elems = append(elems, elemLit(j))
	}
	other := int64(0)
	if s.k == 0 {
		other = int64(s.n - 1)
	}
	if s.n == 1 && s.k == 0 {
		other = -1
	}
	cond := "cond" + sfx
	p.Funcs = append(p.Funcs, &fl.Func{Name: cond, Params: []fl.Param{{"v", fl.I32}}, Ret: fl.Bool, Body: []fl.Stmt{&fl.Return{X: fl.B(">", fl.V("v"), i32(0))}}})
	a := fl.V("a")
	var pre, post []fl.Stmt
	var wrapAcc func([]fl.Stmt) []fl.Stmt
	var idx fl.Expr = fl.V("i")
	k := i32(s.k)
	leti := func(v fl.Expr) fl.Stmt { return &fl.Let{Name: "i", T: fl.I32, Init: v} }
	switch s.pat {
	case "literal":
		idx = k
	case "const":
		pre = []fl.Stmt{&fl.Let{Name: "i", T: fl.I32, Init: k, Const: true}}
	case "let":
		pre = []fl.Stmt{leti(k)}
	case "let-reassigned-before":
		pre = []fl.Stmt{leti(i32(other)), &fl.Assign{LHS: fl.V("i"), RHS: k}}
	case "let-reassigned-after":
		pre = []fl.Stmt{leti(k)}
		post = []fl.Stmt{&fl.Assign{LHS: fl.V("i"), RHS: i32(other)}, fl.P(fl.V("i"))}
	case "if-one-branch-taken":
		pre = []fl.Stmt{leti(i32(other)), &fl.If{Cond: fl.C(cond, i32(1)), Then: []fl.Stmt{&fl.Assign{LHS: fl.V("i"), RHS: k}}}}
	case "if-one-branch-not-taken":
		pre = []fl.Stmt{leti(k), &fl.If{Cond: fl.C(cond, i32(0)), Then: []fl.Stmt{&fl.Assign{LHS: fl.V("i"), RHS: i32(other)}}}}
	case "if-both-branches":
		pre = []fl.Stmt{leti(i32(0)), &fl.If{Cond: fl.C(cond, i32(1)), Then: []fl.Stmt{&fl.Assign{LHS: fl.V("i"), RHS: k}}, Else: []fl.Stmt{&fl.Assign{LHS: fl.V("i"), RHS: i32(other)}}}}
	case "match-arm":
		pre = []fl.Stmt{leti(i32(0)), &fl.Let{Name: "m", T: fl.I32, Init: i32(1)}, &fl.Match{Subj: fl.V("m"), Arms: []fl.Arm{
			{Pat: i32(1), Body: []fl.Stmt{&fl.Assign{LHS: fl.V("i"), RHS: k}}}, {Body: []fl.Stmt{&fl.Assign{LHS: fl.V("i"), RHS: i32(other)}}}}}}
	case "while-increment":
		if s.k < 0 {
			return nil, false
		}
		pre = []fl.Stmt{leti(i32(0)), &fl.While{Cond: fl.B("<", fl.V("i"), k), Body: []fl.Stmt{&fl.IncDec{LHS: fl.V("i"), Inc: true}}}}
	case "compound-add":
		pre = []fl.Stmt{leti(i32(1)), &fl.OpAssign{Op: "+=", LHS: fl.V("i"), RHS: i32(s.k - 1)}}
	case "incdec":
		pre = []fl.Stmt{leti(i32(s.k - 1)), &fl.IncDec{LHS: fl.V("i"), Inc: true}}
	case "func-result":
		p.Funcs = append(p.Funcs, &fl.Func{Name: "ix" + sfx, Ret: fl.I32, Body: []fl.Stmt{&fl.Return{X: k}}})
		idx = fl.C("ix" + sfx)
	case "neg-div":
		// (c / 2) with c = -7 truncates to -3; floor division would give -4
		pre = []fl.Stmt{&fl.Let{Name: "c", T: fl.I32, Init: i32(-7), Const: true}}
		idx = fl.B("+", fl.B("/", fl.V("c"), i32(2)), i32(s.k+3))
	case "neg-rem":
		// (c % 4) with c = -7 is -3 (sign of the dividend); Euclidean mod would give 1
		pre = []fl.Stmt{&fl.Let{Name: "c", T: fl.I32, Init: i32(-7), Const: true}}
		idx = fl.B("+", fl.B("%", fl.V("c"), i32(4)), i32(s.k+3))
	case "struct-field":
		ht := &fl.TStruct{Name: "Ix" + sfx, Fields: []fl.Field{{"I", fl.I32}}}
		p.Structs = append(p.Structs, ht)
		pre = []fl.Stmt{&fl.Let{Name: "h", Init: &fl.StructLit{T: ht, Vals: []fl.Expr{k}}}}
		idx = fl.F(fl.V("h"), "I")
	case "via-ref":
		pre = []fl.Stmt{leti(k), &fl.Let{Name: "r", T: fl.TRef{Elem: fl.I32}, Init: &fl.Borrow{X: fl.V("i")}}}
		idx = fl.V("r")
	case "let-shadowing-block":
		// an inner block declares its own i; the access uses the outer one
		pre = []fl.Stmt{leti(k), &fl.Block{Body: []fl.Stmt{&fl.Let{Name: "i", T: fl.I32, Init: i32(other)}, fl.P(fl.V("i"))}}}
	case "reassigned-in-loop-after", "reassigned-in-for-after", "closure-sees-later-value", "ref-write-in-loop-after", "refarg-in-loop-after", "ref-write-in-for-after":
		// handled below: the access sits inside a loop / a closure
	case "catch-handler-not-run":
		// the handler of a catch that is not taken assigns the index
		p.Funcs = append(p.Funcs, &fl.Func{Name: "okr" + sfx, Ret: fl.TResult{Err: fl.Str, Ok: fl.I32}, Body: []fl.Stmt{&fl.Return{X: i32(1)}}})
		pre = []fl.Stmt{leti(k), &fl.Let{Name: "cv", Init: &fl.Catch{X: fl.C("okr" + sfx), ErrName: "e", Handler: []fl.Stmt{&fl.Assign{LHS: fl.V("i"), RHS: i32(other)}}, Fallback: i32(0)}}, fl.P(fl.V("cv"))}
	case "cast-wrap-u8":
		// (k + 256) as u8 is k for k >= 0; negative k is left to the other patterns
		if s.k < 0 {
			return nil, false
		}
		pre = []fl.Stmt{&fl.Let{Name: "c", T: fl.I32, Init: i32(s.k + 256), Const: true}}
		idx = &fl.Cast{X: &fl.Cast{X: fl.V("c"), T: fl.U8}, T: fl.I32}
	case "cast-wrap-i8":
		// (k + 256) as i8 is k for -128 <= k < 128
		pre = []fl.Stmt{&fl.Let{Name: "c", T: fl.I32, Init: i32(s.k + 256), Const: true}}
		idx = &fl.Cast{X: &fl.Cast{X: fl.V("c"), T: fl.I8}, T: fl.I32}
	case "cast-widen":
		pre = []fl.Stmt{&fl.Let{Name: "c", T: fl.I8, Init: fl.L(fl.I8, s.k), Const: true}}
		idx = &fl.Cast{X: fl.V("c"), T: fl.I32}
	case "match-later-arm":
		pre = []fl.Stmt{leti(k), &fl.Let{Name: "m", T: fl.I32, Init: i32(2)}}
		wrapAcc = func(acc []fl.Stmt) []fl.Stmt {
			return []fl.Stmt{&fl.Match{Subj: fl.V("m"), Arms: []fl.Arm{{Pat: i32(1), Body: []fl.Stmt{&fl.Assign{LHS: fl.V("i"), RHS: i32(other)}}}, {Pat: i32(2), Body: acc}, {Body: []fl.Stmt{fl.P(fl.S("none"))}}}}}
		}
	case "match-earlier-arm":
		pre = []fl.Stmt{leti(k), &fl.Let{Name: "m", T: fl.I32, Init: i32(1)}}
		wrapAcc = func(acc []fl.Stmt) []fl.Stmt {
			return []fl.Stmt{&fl.Match{Subj: fl.V("m"), Arms: []fl.Arm{{Pat: i32(1), Body: acc}, {Pat: i32(2), Body: []fl.Stmt{&fl.Assign{LHS: fl.V("i"), RHS: i32(other)}}}, {Body: []fl.Stmt{fl.P(fl.S("none"))}}}}}
		}
	case "else-after-then-assign":
		pre = []fl.Stmt{leti(k)}
		wrapAcc = func(acc []fl.Stmt) []fl.Stmt {
			return []fl.Stmt{&fl.If{Cond: fl.C(cond, i32(0)), Then: []fl.Stmt{&fl.Assign{LHS: fl.V("i"), RHS: i32(other)}}, Else: acc}}
		}
	case "then-before-else-assign":
		pre = []fl.Stmt{leti(k)}
		wrapAcc = func(acc []fl.Stmt) []fl.Stmt {
			return []fl.Stmt{&fl.If{Cond: fl.C(cond, i32(1)), Then: acc, Else: []fl.Stmt{&fl.Assign{LHS: fl.V("i"), RHS: i32(other)}}}}
		}
	case "elseif-middle":
		pre = []fl.Stmt{leti(k)}
		wrapAcc = func(acc []fl.Stmt) []fl.Stmt {
			return []fl.Stmt{&fl.If{Cond: fl.C(cond, i32(0)), Then: []fl.Stmt{&fl.Assign{LHS: fl.V("i"), RHS: i32(other)}},
				Else: []fl.Stmt{&fl.If{Cond: fl.C(cond, i32(1)), Then: acc, Else: []fl.Stmt{&fl.Assign{LHS: fl.V("i"), RHS: i32(other)}}}}}}
		}
	case "param", "param-sibling-lit":
	}
	var acc []fl.Stmt
	e := fl.Ix(a, idx)
	switch s.acc {
	case "read":
		acc = []fl.Stmt{fl.P(e)}
	case "read-twice":
		acc = []fl.Stmt{fl.P(fl.B("+", e, fl.Ix(a, idx)))}
	case "write":
		acc = []fl.Stmt{&fl.Assign{LHS: e, RHS: elemWith(et, st, 99)}}
	case "compound-write":
		acc = []fl.Stmt{&fl.OpAssign{Op: "+=", LHS: e, RHS: fl.L(et.(fl.TInt), 5)}}
	case "borrow-read":
		acc = []fl.Stmt{&fl.Block{Body: []fl.Stmt{&fl.Let{Name: "rr", T: fl.TRef{Elem: et}, Init: &fl.Borrow{X: e}}, fl.P(fl.V("rr"))}}}
	case "optional-init":
		acc = []fl.Stmt{&fl.Let{Name: "opt", T: fl.TOpt{Elem: et}, Init: e}, &fl.Let{Name: "dflt", T: et, Init: fl.L(et.(fl.TInt), -1)}, &fl.Let{Name: "got", T: et, Init: &fl.Coalesce{X: fl.V("opt"), D: fl.V("dflt")}}, fl.P(fl.V("got"))}
	case "arg":
		p.Funcs = append(p.Funcs, &fl.Func{Name: "show" + sfx, Params: []fl.Param{{"v", et}}, Body: []fl.Stmt{fl.P(fl.V("v"))}})
		acc = []fl.Stmt{&fl.ExprStmt{X: fl.C("show"+sfx, e)}}
	case "return":
		// handled below (the array lives in a helper that returns the element)
		acc = []fl.Stmt{fl.P(e)}
	case "field-read":
		acc = []fl.Stmt{fl.P(fl.F(e, "B"))}
	case "field-write":
		acc = []fl.Stmt{&fl.Assign{LHS: fl.F(e, "A"), RHS: fl.L(sf[0].T.(fl.TInt), 99)}}
	}
	if isStruct && (s.acc == "read" || s.acc == "read-twice" || s.acc == "compound-write" || s.acc == "borrow-read" || s.acc == "optional-init" || s.acc == "arg" || s.acc == "return") {
		return nil, false
	}
	var dump []fl.Stmt
	for j := 0; j < s.n; j++ {
		if isStruct {
			for _, f := range sf {
				dump = append(dump, fl.P(fl.F(fl.Ix(a, i32(int64(j))), f.Name)))
			}
		} else {
			dump = append(dump, fl.P(fl.Ix(a, i32(int64(j)))))
		}
	}
	dump = append(dump, fl.P(fl.V("g1")), fl.P(fl.V("g2")))
	decl := []fl.Stmt{&fl.Let{Name: "g1", T: fl.I64, Init: fl.L(fl.I64, 1111)}, &fl.Let{Name: "a", T: fl.TArr{N: s.n, Elem: et}, Init: &fl.ArrLit{Elems: elems}},
		&fl.Let{Name: "g2", T: fl.I64, Init: fl.L(fl.I64, 2222)}}
	var body []fl.Stmt
	switch s.pat {
	case "param-sibling-lit":
		inner := append([]fl.Stmt{fl.P(fl.S("before"))}, acc...)
		fb := append(append([]fl.Stmt{}, decl...), &fl.If{Cond: fl.C(cond, i32(0)), Then: []fl.Stmt{&fl.Assign{LHS: fl.V("i"), RHS: i32(other)}, fl.P(fl.V("i"))}, Else: inner})
		fb = append(fb, dump...)
		p.Funcs = append(p.Funcs, &fl.Func{Name: "acc" + sfx, Params: []fl.Param{{"i", fl.I32}}, Body: fb})
		body = []fl.Stmt{&fl.ExprStmt{X: fl.C("acc"+sfx, k)}}
	case "param":
		fb := append(append(append([]fl.Stmt{}, decl...), fl.P(fl.S("before"))), acc...)
		fb = append(fb, dump...)
		p.Funcs = append(p.Funcs, &fl.Func{Name: "acc" + sfx, Params: []fl.Param{{"i", fl.I32}}, Body: fb})
		body = []fl.Stmt{&fl.ExprStmt{X: fl.C("acc"+sfx, k)}}
	case "reassigned-in-loop-after":
		// two iterations: i is k in the first, `other` in the second
		loop := &fl.While{Cond: fl.B("<", fl.V("t"), i32(2)), Body: append(append([]fl.Stmt{fl.P(fl.S("before"))}, acc...), &fl.Assign{LHS: fl.V("i"), RHS: i32(other)}, &fl.IncDec{LHS: fl.V("t"), Inc: true})}
		body = append(append(append([]fl.Stmt{}, decl...), leti(k), &fl.Let{Name: "t", T: fl.I32, Init: i32(0)}, loop), dump...)
	case "ref-write-in-loop-after", "refarg-in-loop-after", "ref-write-in-for-after":
		// two iterations: i is k in the first, `other` in the second
		var change fl.Stmt = &fl.Block{Body: []fl.Stmt{&fl.Let{Name: "ri", T: fl.TRef{Elem: fl.I32, Mut: true}, Init: &fl.Borrow{X: fl.V("i"), Mut: true}}, &fl.Assign{LHS: fl.V("ri"), RHS: i32(other)}}}
		if s.pat == "refarg-in-loop-after" {
			p.Funcs = append(p.Funcs, &fl.Func{Name: "setix" + sfx, Params: []fl.Param{{"r", fl.TRef{Elem: fl.I32, Mut: true}}, {"v", fl.I32}}, Body: []fl.Stmt{&fl.Assign{LHS: fl.V("r"), RHS: fl.V("v")}}})
			change = &fl.ExprStmt{X: fl.C("setix"+sfx, &fl.Borrow{X: fl.V("i"), Mut: true}, i32(other))}
		}
		lb := append(append([]fl.Stmt{fl.P(fl.S("before"))}, acc...), change)
		if s.pat == "ref-write-in-for-after" {
			loop := &fl.ForRange{Var: "t", Lo: fl.V("lo"), Hi: fl.V("hi"), Body: lb}
			body = append(append(append([]fl.Stmt{}, decl...), leti(k), &fl.Let{Name: "lo", T: fl.I32, Init: i32(0)}, &fl.Let{Name: "hi", T: fl.I32, Init: i32(2)}, loop), dump...)
		} else {
			loop := &fl.While{Cond: fl.B("<", fl.V("t"), i32(2)), Body: append(lb, &fl.IncDec{LHS: fl.V("t"), Inc: true})}
			body = append(append(append([]fl.Stmt{}, decl...), leti(k), &fl.Let{Name: "t", T: fl.I32, Init: i32(0)}, loop), dump...)
		}
	case "reassigned-in-for-after":
		loop := &fl.ForRange{Var: "t", Lo: fl.V("lo"), Hi: fl.V("hi"), Body: append(append([]fl.Stmt{fl.P(fl.S("before"))}, acc...), &fl.Assign{LHS: fl.V("i"), RHS: i32(other)})}
		body = append(append(append([]fl.Stmt{}, decl...), leti(k), &fl.Let{Name: "lo", T: fl.I32, Init: i32(0)}, &fl.Let{Name: "hi", T: fl.I32, Init: i32(2)}, loop), dump...)
	case "closure-sees-later-value":
		// the closure is created while i == other and called after i = k: it reads i then
		cl := &fl.FuncLit{Body: append([]fl.Stmt{fl.P(fl.S("before"))}, acc...)}
		body = append(append(append([]fl.Stmt{}, decl...), leti(i32(other)), &fl.Let{Name: "f", Init: cl}, &fl.Assign{LHS: fl.V("i"), RHS: k}, &fl.ExprStmt{X: &fl.Call{Fn: "f"}}), dump...)
	default:
		if wrapAcc != nil {
			body = append(append(append([]fl.Stmt{}, decl...), pre...), wrapAcc(append([]fl.Stmt{fl.P(fl.S("before"))}, acc...))...)
		} else {
			body = append(append(append(append([]fl.Stmt{}, decl...), pre...), fl.P(fl.S("before"))), acc...)
		}
		body = append(append(body, post...), dump...)
	}
	p.Funcs = append(p.Funcs, &fl.Func{Name: "main", Body: body})
	return p, true
}

func elemWith(et fl.Type, st *fl.TStruct, v int64) fl.Expr {
	if st != nil {
		var vals []fl.Expr
		for i, f := range st.Fields {
			vals = append(vals, fl.L(f.T.(fl.TInt), (v+int64(i))%120))
		}
		return &fl.StructLit{T: st, Vals: vals}
	}
	return fl.L(et.(fl.TInt), v)
}

// Bases returns index-pattern programs (in range, N=3, i32) as bases for C09.
func Bases(quick bool) []*prog.Case {
	var out []*prog.Case
	seq := 900000
	for _, pat := range []string{"literal", "const", "let", "let-reassigned-before", "let-reassigned-after", "if-one-branch-taken", "if-both-branches", "compound-add", "incdec", "neg-div", "neg-rem",
		"match-arm", "match-later-arm", "match-earlier-arm", "else-after-then-assign", "elseif-middle", "cast-wrap-u8", "cast-wrap-i8"} {
		for _, acc := range []string{"read", "write"} {
			for _, k := range []int64{-1, 0, 2} {
				s := spec{pat, acc, 3, k, "i32"}
				seq++
				p, ok := build(s, fmt.Sprintf("_%d", seq))
				if ok {
					out = append(out, &prog.Case{ID: s.id(), P: p, Want: fl.Run(p)})
				}
			}
		}
	}
	return out
}

func Run(c *vl.Ctx) {
	quick := c.Quick()
	ns := []int{3}
	elemKinds := []string{"i32", "struct", "s12"}
	if !quick {
		ns = []int{1, 3, 4}
		elemKinds = []string{"i32", "i8", "i64", "struct", "s12", "s24", "s6"}
	}
	var cases []*prog.Case
	var specs []spec
	altWant := map[string]fl.Outcome{}
	seq := 0
	for _, pat := range patterns {
		for _, acc := range accesses {
			for _, n := range ns {
				for _, ek := range elemKinds {
					for k := int64(-n - 1); k <= int64(n); k++ {
						s := spec{pat, acc, n, k, ek}
						if f := os.Getenv("VERIF_FILTER"); f != "" && !strings.Contains(s.id(), f) {
							continue
						}
						seq++
						p, ok := build(s, fmt.Sprintf("_%d", seq))
						if !ok {
							continue
						}
						cases = append(cases, &prog.Case{ID: s.id(), P: p, Want: fl.Run(p)})
						specs = append(specs, s)
						if pat == "closure-sees-later-value" {
							// capture semantics for a variable reassigned after the capture are not
							// pinned: by-value capture sees the index the variable had at creation
							other := int64(0)
							if k == 0 {
								other = int64(n - 1)
							}
							if n == 1 && k == 0 {
								other = -1
							}
							if q, ok := build(spec{"let", acc, n, other, ek}, fmt.Sprintf("_%d", seq)); ok {
								altWant[s.id()] = fl.Run(q)
							}
						}
					}
				}
			}
		}
	}
	// front-end verdicts first (fast), then run the accepted programs
	pool := fe.NewPool(c.W, filepath.Join(c.Repo, "ferret_libs"), 16)
	accepted := make([]bool, len(cases))
	pool.Map(len(cases), func(i int) *fe.Project {
		return &fe.Project{Files: map[string]string{"main.fer": fl.Render(cases[i].P)}, Entry: "main.fer", Mode: "check", NoRender: true}
	}, func(i int, r *fe.Result) {
		k := cases[i]
		if strings.HasPrefix(k.Want.Term, "fault:") {
			c.Fail(vl.Fail{Case: k.ID + "/HARNESS", Obs: "reference interpreter fault: " + k.Want.Term, Files: map[string]string{"main.fer": fl.Render(k.P)}})
			return
		}
		if r.Panic != "" || r.Timeout || r.Crash != "" {
			c.Fail(vl.Fail{Case: k.ID, Obs: "front end did not answer: panic=" + r.Panic + " " + r.PanicFrame + " crash=" + r.Crash, Files: map[string]string{"main.fer": fl.Render(k.P)}})
			return
		}
		accepted[i] = r.Success
		inRange := !strings.HasPrefix(k.Want.Term, "panic:")
		c.Outcome(fmt.Sprintf("pattern=%s accepted=%v in_range=%v", specs[i].pat, r.Success, inRange))
		if !r.Success {
			c.Count("rejected_by_front_end", 1)
		}
	})
	pool.Close()
	var live []*prog.Case
	for i, k := range cases {
		if accepted[i] {
			live = append(live, k)
		}
	}
	r := prog.New(c)
	obs := r.Observe(live, "native", func(i int) *prog.Obs { return prog.WantObs(live[i].Want) })
	for i, k := range live {
		o := obs[i]
		c.Distinct(k.ID)
		files := map[string]string{"main.fer": fl.Render(k.P), "expected.txt": k.Want.String(), "observed.txt": o.String()}
		wantPanic := strings.HasPrefix(k.Want.Term, "panic:")
		switch {
		case !o.Accepted:
			// the front end accepted but the build failed: not "rejected with a diagnostic"
			// unless the compiler exited non-zero with an error message; rejection is allowed.
			if strings.HasPrefix(o.Reject, "exit status 0") {
				c.Fail(vl.Fail{Case: k.ID, Obs: "accepted by the front end, no executable and exit 0: " + o.Reject, Files: files})
			} else {
				c.Count("rejected_by_back_end", 1)
				c.Outcome("backend-reject:" + o.Reject)
			}
		case wantPanic:
			// out of range on this execution: must stop with a panic after the same lines
			if alt, ok := altWant[k.ID]; ok && o.SameBehaviour(alt) {
				c.Outcome("agrees-with-by-value-capture")
				break
			}
			if !strings.HasPrefix(o.Term, "panic:") || strings.Join(o.Lines, "\n") != strings.Join(k.Want.Lines, "\n") {
				c.Fail(vl.Fail{Case: k.ID, Obs: fmt.Sprintf("out-of-range access did not panic cleanly: want %s got %s", prog.WantObs(k.Want), o), Files: files})
			} else {
				c.Outcome("panicked-as-required")
			}
		case !o.SameBehaviour(k.Want):
			if alt, ok := altWant[k.ID]; ok && (o.SameBehaviour(alt) || (strings.HasPrefix(alt.Term, "panic:") && strings.HasPrefix(o.Term, "panic:"))) {
				c.Outcome("agrees-with-by-value-capture")
				break
			}
			c.Fail(vl.Fail{Case: k.ID, Obs: fmt.Sprintf("want %s got %s", prog.WantObs(k.Want), o), Files: files})
		default:
			c.Outcome("agrees")
		}
	}
	for _, i := range []int{0, len(cases) / 2, len(cases) - 1} {
		if i >= 0 && i < len(cases) {
			c.Sample(map[string]string{"id": cases[i].ID, "program": fl.Render(cases[i].P), "expected": cases[i].Want.String()})
		}
	}
	r.Report()
	r.Close()
	c.Count("accepted_programs", int64(len(live)))
	c.Assume = append(c.Assume, "rejection (at compile time) is always allowed by this property and is only counted",
		"an out-of-range access must end in a panic (any message) after exactly the lines the reference prints before it")
	c.Finish(vl.Coverage{Evaluations: int64(len(cases)), Exhaustive: true,
		Rule:  fmt.Sprintf("%d index-definition patterns x %d access forms x N in %v x element kinds %v x every index value in [-N-1, N]; accepted programs run natively against the reference interpreter; distinct_nontrivial = accepted programs (unique ids)", len(patterns), len(accesses), ns, elemKinds),
		Bound: fmt.Sprintf("N=%v elems=%v", ns, elemKinds)})
}
