//go:build verif

package analysis

import "compiler/internal/semantics/symbols"

// VerifResetConstEval clears the process-global (pointer-keyed) array-literal length table.
// Added by overlay for the verification harness only (build tag verif).
func VerifResetConstEval() {
	arrayLiteralLengths = make(map[*symbols.Symbol]int)
}
