//go:build verif

package diagnostics

// VerifSort applies the emission order (the bag's own sort) to a copy of the diagnostics.
func VerifSort(ds []*Diagnostic) { sortDiagnostics(ds) }
