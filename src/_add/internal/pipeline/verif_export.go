//go:build verif

package pipeline

import (
	"fmt"

	qbe "compiler/internal/codegen/qbe_embeddings"
	"compiler/internal/mir"
)

// VerifEmitQBE emits the QBE IL of every module the native back end would generate,
// through the pipeline's own helpers, without running QBE, the assembler or the linker.
// Added by overlay for the verification harness only (build tag verif).
func (p *Pipeline) VerifEmitQBE() (order []string, il map[string]string, err error) {
	il = map[string]string{}
	if err := p.ensureEntryMain(); err != nil {
		return nil, nil, err
	}
	mods := p.collectModulesForCodegen()
	entry, imported := splitEntryModule(mods, p.ctx.EntryModule)
	if entry != "" {
		imported = append(imported, entry)
	}
	for _, importPath := range imported {
		module, exists := p.ctx.GetModule(importPath)
		if !exists {
			return order, il, fmt.Errorf("module not found: %s", importPath)
		}
		mirModule := mir.ModuleFromModule(module)
		if mirModule == nil {
			return order, il, fmt.Errorf("MIR module not found for %s", importPath)
		}
		mir.LowerSwitches(mirModule)
		ssa, err := qbe.New(p.ctx, module, mirModule).Emit()
		if err != nil {
			return order, il, err
		}
		order = append(order, importPath)
		il[importPath] = ssa
	}
	return order, il, nil
}
