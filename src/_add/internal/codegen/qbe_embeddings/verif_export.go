//go:build verif

package qbe

import (
	"compiler/internal/mir"
	"compiler/internal/types"
)

// VerifResultTagOffset exposes the native emitter's own computation of the byte offset of a
// result's ok/err tag (resultTagOffset) for a given data layout, so that the verification
// harness (C18) can compare it with what mir.DataLayout.SizeOf lays out for the same type.
// Added by overlay for the verification harness only (build tag verif).
func VerifResultTagOffset(layout *mir.DataLayout, res *types.ResultType) (off int, ok bool) {
	defer func() {
		if recover() != nil {
			off, ok = 0, false
		}
	}()
	g := &Generator{layout: layout}
	return g.resultTagOffset(res, nil)
}
