//go:build verif

package utils

// VerifResetLiterals resets the process-global literal-id counters, so that consecutive
// in-process compiles start from the state a fresh compiler process has.
// Added by overlay for the verification harness only (build tag verif).
func VerifResetLiterals() {
	for _, p := range litCountermap {
		*p = 0
	}
}
