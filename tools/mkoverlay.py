#!/usr/bin/env python3
"""mkoverlay.py <verif-src> <repo> <out.json> [extra.json ...]
Maps every *.go under <verif-src>/<pkg>/ to <repo>/verifh/<pkg>/ (virtual packages of
module `compiler`), and files under <verif-src>/_add/<path> to <repo>/<path> (files added
to existing packages, all carrying //go:build verif)."""
import json, os, sys
src, repo, out = sys.argv[1], sys.argv[2], sys.argv[3]
rep = {}
for root, dirs, files in os.walk(src):
    rel = os.path.relpath(root, src)
    for f in files:
        if not (f.endswith('.go') or f.endswith('.s')):
            continue
        p = os.path.join(root, f)
        if rel.startswith('_add'):
            dst = os.path.join(repo, os.path.relpath(p, os.path.join(src, '_add')))
        else:
            dst = os.path.join(repo, 'verifh', rel, f)
        rep[dst] = p
for extra in sys.argv[4:]:
    rep.update(json.load(open(extra))['Replace'])
json.dump({'Replace': rep}, open(out, 'w'), indent=0)
