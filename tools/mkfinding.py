#!/usr/bin/env python3
"""mkfinding.py <property> <finding-id> <title> <regex over case id> [--obs <regex over observation>] triage1.out [triage2.out ...]
Reads TRIAGE lines (case \\t hash \\t obs) from one or more `./check Cnn triage` outputs,
selects the cases matching the regexes, and writes findings/cases/<finding-id>.txt with one
"<case>\\t<hash>" line per case ("*" when the hash differs between the given runs, i.e. the wrong
observation is not stable), and appends the finding entry to findings/known.jsonl (if absent).
The selection is reviewed by hand; checks never call this."""
import sys, re, json, os, collections
args = sys.argv[1:]
prop, fid, title, rx = args[:4]
rest = args[4:]
obsrx = None
if rest and rest[0] == '--obs':
    obsrx = re.compile(rest[1]); rest = rest[2:]
rx = re.compile(rx)
seen = collections.defaultdict(set)
example = {}
for fn in rest:
    for l in open(fn, errors='replace'):
        if not l.startswith('TRIAGE\t'): continue
        parts = l.rstrip('\n').split('\t')
        if len(parts) < 4: continue
        _, case, h, obs = parts[:4]
        if not rx.search(case): continue
        if obsrx and not obsrx.search(obs): continue
        seen[case].add(h); example.setdefault(case, obs)
root = os.path.join(os.path.dirname(os.path.abspath(__file__)), '..', 'findings')
os.makedirs(os.path.join(root, 'cases'), exist_ok=True)
path = os.path.join(root, 'cases', fid + '.txt')
old = {}
if os.path.exists(path):
    for l in open(path):
        if '\t' in l:
            c, h = l.rstrip('\n').split('\t', 1); old[c] = h
for c, hs in seen.items():
    h = '*' if len(hs) > 1 else next(iter(hs))
    if c in old and old[c] != h: h = '*'
    old[c] = h
with open(path, 'w') as f:
    for c in sorted(old): f.write(f"{c}\t{old[c]}\n")
kn = os.path.join(root, 'known.jsonl')
txt = open(kn).read()
if f'"finding":"{fid}"' not in txt:
    first = sorted(seen)[0] if seen else ''
    with open(kn, 'a') as f:
        f.write(json.dumps({"property": prop, "finding": fid, "title": title, "cases_file": f"cases/{fid}.txt",
                            "witness": f"{first} :: {example.get(first, '')[:300]}"}, separators=(',', ':')) + '\n')
print(f"{fid}: {len(old)} cases ({sum(1 for v in old.values() if v=='*')} with unstable observation)")
