#!/bin/bash
# tools/run_seed.sh <seeded/<id> dir> [tier] — runs the property's check against a scratch
# worktree of /repo with the seeded change applied; writes <dir>/detection.json.
set -u
S="$(cd "$1" && pwd)"; TIER="${2:-quick}"
VERIF_DIR="$(cd "$(dirname "$0")/.." && pwd)"
P=$(python3 -c "import json,sys;print(json.load(open('$S/meta.json'))['property'])")
# CHECK=<Cnn> runs another property's check against the change (written to detection_<Cnn>.json)
OUTF="$S/detection.json"
if [ -n "${CHECK:-}" ]; then P="$CHECK"; OUTF="$S/detection_$CHECK.json"; fi
WT=$(mktemp -d /dev/shm/wt_runseed.XXXXXX); rmdir "$WT"
git -C /repo worktree add -q --detach "$WT" HEAD || exit 2
if ! git -C "$WT" apply "$S/patch.diff"; then echo "patch does not apply"; git -C /repo worktree remove --force "$WT"; exit 2; fi
start=$(date +%s)
out=$(cd "$VERIF_DIR" && VERIF_REPO="$WT" VERIF_NO_EVIDENCE=1 timeout 5400 ./check "$P" "$TIER" 2>&1); code=$?
end=$(date +%s)
nviol=$(echo "$out" | grep -c '^VIOLATION')
first=$(echo "$out" | grep -m1 '^VIOLATION' | sed 's/.*replay=//')
case_id=""; obs=""
if [ -n "$first" ] && [ -f "$first/case.json" ]; then case_id=$(python3 -c "import json;d=json.load(open('$first/case.json'));print(d['case'])"); obs=$(python3 -c "import json;d=json.load(open('$first/case.json'));print(d['observation'][:300])"); fi
summary=$(echo "$out" | grep -m1 "^$P $TIER:" )
python3 - "$OUTF" "$P" "$TIER" "$code" "$nviol" "$case_id" "$obs" "$summary" "$((end-start))" "$(git -C /repo rev-parse --short HEAD)" "${VERIF_FILTER:-}" <<'PY'
import json,sys
out,p,tier,code,nviol,case,obs,summary,secs,head,flt=sys.argv[1:12]
import os
hist=[]
if os.path.exists(out):
    try:
        o=json.load(open(out)); hist=o.get("history",[])+[{k:o.get(k) for k in ("detected","exit_code","violation_lines","repo_head","verif_head","first_violation_case")}]
    except Exception: pass
vh=os.popen("git -C /verif rev-parse --short HEAD").read().strip()
json.dump({"history":hist,"verif_head":vh,"check":p,"tier":tier,"exit_code":int(code),"violation_lines":int(nviol),"detected":int(code)==1 and int(nviol)>0,
           "first_violation_case":case,"first_violation_observation":obs,"check_summary":summary,"wall_s":int(secs),"repo_head":head,
           **({"case_filter":flt,"note":"run narrowed with VERIF_FILTER to the families named (the full quick tier contains them)"} if flt else {})},open(out,"w"),indent=1)
PY
git -C /repo worktree remove --force "$WT"
echo "$(basename $S): exit=$code violations=$nviol ${case_id}"
