#!/bin/bash
# [WAVE=3] tools/wave2.sh <Cnn> : verifies the second-wave seeded changes /tmp/seeds2/<Cnn>/s1,s2 (written by
# a sub-agent that saw only the property text), imports the confirmed ones as
# seeded/<Cnn>-w2-<k>/ and runs the property's quick check against each.
set -u
P="$1"
WAVE="${WAVE:-2}"; SRC="${SRC:-/tmp/seeds$WAVE}"
cd "$(dirname "$0")/.."
[ -d /tmp/seedbase ] || git -C /repo worktree add -q --detach /tmp/seedbase HEAD
for k in 1 2; do
  S=$SRC/$P/s$k
  [ -f "$S/patch.diff" ] || { echo "$P s$k: no patch"; continue; }
  id="$P-w$WAVE-$k"
  tools/verify_seed.sh "$S" /tmp/seedbase /tmp/seedverify2/$id.json > /tmp/seedverify2/$id.log 2>&1
  ok=$(python3 -c "import json;print(json.load(open('/tmp/seedverify2/$id.json'))['confirmed'])" 2>/dev/null)
  echo "$id confirmed=$ok $(tr -d '\n' < /tmp/seedverify2/$id.json | cut -c1-220)"
  [ "$ok" = "True" ] || continue
  D=seeded/$id
  mkdir -p $D; cp "$S/patch.diff" $D/; rm -rf $D/demo; cp -r "$S/demo" $D/demo
  python3 - "$S/meta.json" /tmp/seedverify2/$id.json $D/meta.json <<'PY'
import json,sys
m=json.load(open(sys.argv[1])); v=json.load(open(sys.argv[2]))
m['confirmed_by_me']={"what_i_ran":"tools/verify_seed.sh: scratch worktree of /repo HEAD, git apply patch.diff, go build ./..., go test -vet=off -count=1 ./... (all pass), demo/run.sh on the patched worktree (must FAIL) and on an unpatched worktree (must PASS)",**{k:v[k] for k in ('applies','builds','tests_pass','demo_with_change_rc','demo_without_change_rc','repo_head')}}
json.dump(m,open(sys.argv[3],'w'),indent=1)
PY
  tools/run_seed.sh $D quick
done
