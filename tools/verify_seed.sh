#!/bin/bash
# tools/verify_seed.sh <seed-dir> <base-worktree> <out-json>
# Confirms a seeded change: applies to HEAD, builds, the repository's tests pass, its demo
# FAILs with the change and PASSes on the unchanged base worktree.
set -u
export GOFLAGS=-mod=mod GOPROXY=off
S="$1"; BASE="$2"; OUT="$3"
# the demos use the helper kit at /tmp/seedkit
rm -rf /tmp/seedkit; cp -r "$(cd "$(dirname "$0")/.." && pwd)/seeded/_kit" /tmp/seedkit
name=$(basename "$S")
WT=$(mktemp -d /dev/shm/wt_seed.XXXXXX); rmdir "$WT"
git -C /repo worktree add -q --detach "$WT" HEAD || exit 2
res() { python3 - "$OUT" "$name" "$@" <<'PY'
import json,sys
out,name,applies,builds,tests,demo_with,demo_without,head=sys.argv[1:9]
json.dump({"seed":name,"applies":applies=="1","builds":builds=="1","tests_pass":tests=="1","demo_with_change_rc":int(demo_with),"demo_without_change_rc":int(demo_without),"repo_head":head,
           "confirmed": applies=="1" and builds=="1" and tests=="1" and demo_with!="0" and demo_without=="0"},open(out,"w"),indent=1)
PY
}
head=$(git -C /repo rev-parse --short HEAD)
applies=0; builds=0; tests=0; dw=-1; dwo=-1
if git -C "$WT" apply "$S/patch.diff" 2>/dev/null; then applies=1
  if (cd "$WT" && go build ./... ) >/dev/null 2>&1; then builds=1
    if (cd "$WT" && go test -vet=off -count=1 ./... ) >/tmp/seedtest.$$ 2>&1; then tests=1; fi
    (cd "$S/demo" && timeout 900 bash ./run.sh "$WT") >/tmp/seeddemo_with.$$ 2>&1; dw=$?
    (cd "$S/demo" && timeout 900 bash ./run.sh "$BASE") >/tmp/seeddemo_without.$$ 2>&1; dwo=$?
  fi
fi
res $applies $builds $tests $dw $dwo $head
git -C /repo worktree remove --force "$WT"
rm -f /tmp/seedtest.$$ /tmp/seeddemo_with.$$ /tmp/seeddemo_without.$$
cat "$OUT" | tr '\n' ' '; echo
