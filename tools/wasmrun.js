// node wasmrun.js <runtime.js> <a.wasm> [b.wasm ...]
// Instantiates each module with a fresh instance of the shipped runtime, calls main(),
// and prints one JSON object per module: {stdout, kind: ok|panic|trap|invalid, message}.
const fs = require('fs');
(async () => {
  const [, , rtPath, ...mods] = process.argv;
  const src = fs.readFileSync(rtPath);
  const rtmod = await import('data:text/javascript;base64,' + src.toString('base64'));
  const realLog = console.log;
  for (const m of mods) {
    const lines = [];
    console.log = (...a) => { lines.push(a.join(' ')); };
    let kind = 'ok', message = '';
    try {
      const rt = rtmod.createFerretRuntime();
      let instance;
      try {
        const bytes = fs.readFileSync(m);
        const r = await WebAssembly.instantiate(bytes, rt.imports);
        instance = r.instance;
      } catch (e) {
        kind = 'invalid'; message = String(e && e.message || e);
      }
      if (instance) {
        rt.bind(instance);
        try {
          instance.exports.main();
        } catch (e) {
          if (e instanceof WebAssembly.RuntimeError || e instanceof RangeError) { kind = 'trap'; }
          else { kind = 'panic'; }
          message = String(e && e.message || e);
        }
      }
    } catch (e) {
      kind = 'invalid'; message = 'runner: ' + String(e && e.message || e);
    }
    console.log = realLog;
    process.stdout.write(JSON.stringify({ stdout: lines.map(l => l + '\n').join(''), kind, message }) + '\n');
  }
})();
