#!/usr/bin/env python3
"""Copies confirmed seeded changes from /tmp/seeds into /verif/seeded/<id>/ (patch.diff, demo/,
meta.json = the author's meta + my own confirmation record)."""
import json, os, shutil, glob
for vf in sorted(glob.glob('/tmp/seedverify/*.json')):
    v = json.load(open(vf))
    if not v.get('confirmed'): continue
    sid = v['seed']; src = f'/tmp/seeds/{sid}'; dst = f'/verif/seeded/{sid}'
    if os.path.exists(os.path.join(dst, 'meta.json')): continue
    os.makedirs(dst, exist_ok=True)
    shutil.copy(os.path.join(src, 'patch.diff'), os.path.join(dst, 'patch.diff'))
    if os.path.isdir(os.path.join(dst, 'demo')): shutil.rmtree(os.path.join(dst, 'demo'))
    shutil.copytree(os.path.join(src, 'demo'), os.path.join(dst, 'demo'), ignore=shutil.ignore_patterns('*.o', '*.a', 'out*', 'prog', '*.wasm', 'gen'))
    meta = json.load(open(os.path.join(src, 'meta.json')))
    meta['confirmed_by_me'] = {"what_i_ran": "tools/verify_seed.sh: scratch worktree of /repo HEAD, git apply patch.diff, go build ./..., go test -vet=off -count=1 ./... (all pass), demo/run.sh on the patched worktree (must FAIL) and on an unpatched worktree (must PASS)",
                               "applies": v['applies'], "builds": v['builds'], "tests_pass": v['tests_pass'],
                               "demo_with_change_rc": v['demo_with_change_rc'], "demo_without_change_rc": v['demo_without_change_rc'], "repo_head": v['repo_head']}
    json.dump(meta, open(os.path.join(dst, 'meta.json'), 'w'), indent=1)
    print('imported', sid)
