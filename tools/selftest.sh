#!/bin/bash
# tools/selftest.sh <Cnn> [tier] — applies each deliberate property-breaking edit under
# mutants/<Cnn>/*.patch to a scratch worktree of /repo (never to /repo itself), runs the check
# against it and requires a VIOLATION (exit 1). Prints one line per mutant.
set -u
P="$1"; TIER="${2:-quick}"
VERIF_DIR="$(cd "$(dirname "$0")/.." && pwd)"
rc=0
for patch in "$VERIF_DIR"/mutants/"$P"/*.patch; do
  [ -e "$patch" ] || { echo "no mutants for $P"; exit 0; }
  WT=$(mktemp -d /dev/shm/wt_selftest.XXXXXX)
  rmdir "$WT"
  git -C /repo worktree add -q --detach "$WT" HEAD || exit 2
  if ! git -C "$WT" apply "$patch"; then echo "SELFTEST $P $(basename "$patch"): patch does not apply"; rc=2; git -C /repo worktree remove --force "$WT"; continue; fi
  out=$(cd "$VERIF_DIR" && VERIF_REPO="$WT" VERIF_NO_EVIDENCE=1 ./check "$P" "$TIER" 2>&1); code=$?
  nviol=$(echo "$out" | grep -c '^VIOLATION')
  if [ $code -eq 1 ] && [ "$nviol" -gt 0 ]; then echo "SELFTEST $P $(basename "$patch"): caught ($nviol violation lines)"; else echo "SELFTEST $P $(basename "$patch"): NOT CAUGHT (exit $code)"; echo "$out" | tail -3; rc=1; fi
  git -C /repo worktree remove --force "$WT"
done
exit $rc
