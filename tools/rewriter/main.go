// Command rewriter produces the instrumented view of the concurrent part of the Ferret
// compiler for Engine C (controlled scheduler).
//
//	rewriter <repo> <outdir> [<overlay-fragment.json>]
//
// It reads the CURRENT sources under <repo>/internal (and <repo>/cmd, <repo>/*.go are left
// alone), and for every non-test file that imports "sync" or "sync/atomic" or contains a
// go statement writes a rewritten copy into <outdir> and records
// <repo>/<path> -> <outdir>/<file> in the overlay fragment:
//
//	import "sync"          -> import sync "compiler/verifh/vsync"   (same local name)
//	import "sync/atomic"   -> import atomic "compiler/verifh/vatomic"
//	go f(x)                -> { _vf := f; _va0 := x; vsync.Go(func() { _vf(_va0) }) }
//	                          (go func(){...}() -> vsync.Go(func() { func(){...}() }))
//	func (p *Pipeline) parseModule(importPath string, ...) gets, as first statement,
//	                          vsync.Count("parseModule:" + importPath)
//	with -maps: `for k, v := range <expr>` at the hand-listed map-range sites of DESIGN C14
//	                          -> iteration over vmap.Keys(<expr>, "<site>")
//
// Standard library only. Map ranges are identified syntactically by a small hand list
// (file, range expression text) because go/types would need the whole module loaded.
package main

import (
	"bytes"
	"encoding/json"
	"fmt"
	"go/ast"
	"go/format"
	"go/parser"
	"go/printer"
	"go/token"
	"os"
	"path/filepath"
	"sort"
	"strconv"
	"strings"
)

const (
	vsyncPath   = "compiler/verifh/vsync"
	vatomicPath = "compiler/verifh/vatomic"
	vmapPath    = "compiler/verifh/vmap"
)

// map-range sites (DESIGN C14 "code read"): file suffix -> range expression source text.
// Only ranges whose key type is string or an integer are listed (vmap.Keys sorts those).
// Listed: the ranges of the phases that the IL and the wasm compile share
// (ComputeTopologicalOrder, runRuntimeAudit). Not listed: back-end-only sites
// (qbe.go `range g.mirMod.TypeIDs`, wasm/emit.go - sorted after collection) and the
// pointer-keyed ranges of borrow.go / cfg.go.
var mapSites = map[string][]string{
	"internal/context_v2/context.go":     {"ctx.Modules", "ctx.DepGraph"},
	"internal/pipeline/runtime_audit.go": {"p.ctx.Modules"},
}

type report struct {
	File       string `json:"file"`
	Sync       bool   `json:"sync"`
	Atomic     bool   `json:"atomic"`
	GoStmts    int    `json:"go_stmts"`
	CountHooks int    `json:"count_hooks"`
	MapRanges  int    `json:"map_ranges"`
}

var builtins = map[string]bool{"close": true, "print": true, "println": true, "panic": true, "delete": true, "copy": true, "append": true, "clear": true}

func main() {
	args := os.Args[1:]
	doMaps := false
	if len(args) > 0 && args[0] == "-maps" {
		doMaps = true
		args = args[1:]
	}
	if len(args) < 2 {
		fmt.Fprintln(os.Stderr, "usage: rewriter [-maps] <repo> <outdir> [<overlay-fragment.json>]")
		os.Exit(2)
	}
	repo, out := filepath.Clean(args[0]), args[1]
	frag := filepath.Join(out, "overlay.json")
	if len(args) > 2 {
		frag = args[2]
	}
	if err := os.MkdirAll(out, 0o755); err != nil {
		die(err)
	}
	var files []string
	err := filepath.Walk(filepath.Join(repo, "internal"), func(p string, info os.FileInfo, err error) error {
		if err != nil {
			return err
		}
		if info.IsDir() {
			return nil
		}
		if strings.HasSuffix(p, ".go") && !strings.HasSuffix(p, "_test.go") {
			files = append(files, p)
		}
		return nil
	})
	if err != nil {
		die(err)
	}
	sort.Strings(files)
	replace := map[string]string{}
	var reps []report
	hooks := 0
	for _, p := range files {
		src, err := os.ReadFile(p)
		if err != nil {
			die(err)
		}
		rel, _ := filepath.Rel(repo, p)
		rel = filepath.ToSlash(rel)
		// cheap pre-filter
		if !bytes.Contains(src, []byte(`"sync"`)) && !bytes.Contains(src, []byte(`"sync/atomic"`)) &&
			!bytes.Contains(src, []byte("go ")) && !(doMaps && mapSites[rel] != nil) {
			continue
		}
		res, rep, err := rewrite(p, rel, src, doMaps)
		if err != nil {
			die(fmt.Errorf("%s: %v", rel, err))
		}
		if res == nil {
			continue
		}
		name := strings.ReplaceAll(rel, "/", "__")
		dst := filepath.Join(out, name)
		if err := os.WriteFile(dst, res, 0o644); err != nil {
			die(err)
		}
		abs, _ := filepath.Abs(dst)
		replace[filepath.Join(repo, filepath.FromSlash(rel))] = abs
		reps = append(reps, rep)
		hooks += rep.CountHooks
	}
	if hooks == 0 {
		die(fmt.Errorf("no (*Pipeline).parseModule found: the counter hook could not be placed"))
	}
	b, _ := json.MarshalIndent(map[string]any{"Replace": replace, "Report": reps}, "", " ")
	if err := os.WriteFile(frag, b, 0o644); err != nil {
		die(err)
	}
	for _, r := range reps {
		fmt.Printf("rewritten %s sync=%v atomic=%v go=%d count=%d maps=%d\n", r.File, r.Sync, r.Atomic, r.GoStmts, r.CountHooks, r.MapRanges)
	}
}

func die(err error) {
	fmt.Fprintln(os.Stderr, "rewriter:", err)
	os.Exit(2)
}

func exprText(fset *token.FileSet, e ast.Expr) string {
	var b bytes.Buffer
	printer.Fprint(&b, fset, e)
	return b.String()
}

func rewrite(path, rel string, src []byte, doMaps bool) ([]byte, report, error) {
	rep := report{File: rel}
	fset := token.NewFileSet()
	f, err := parser.ParseFile(fset, path, src, parser.ParseComments)
	if err != nil {
		return nil, rep, err
	}
	// does this file need rewriting at all?
	need := false
	for _, imp := range f.Imports {
		if imp.Path.Value == `"sync"` || imp.Path.Value == `"sync/atomic"` {
			need = true
		}
	}
	ast.Inspect(f, func(n ast.Node) bool {
		switch x := n.(type) {
		case *ast.GoStmt:
			need = true
		case *ast.FuncDecl:
			if x.Name.Name == "parseModule" && x.Recv != nil {
				need = true
			}
		}
		return true
	})
	if doMaps && mapSites[rel] != nil {
		need = true
	}
	if !need {
		return nil, rep, nil
	}
	// keep //go:build lines and other directives; drop ordinary comments (new nodes have no
	// positions and go/printer would interleave comments unpredictably)
	var buildLines []string
	for _, cg := range f.Comments {
		for _, c := range cg.List {
			if strings.HasPrefix(c.Text, "//go:build ") && c.Pos() < f.Package {
				buildLines = append(buildLines, c.Text)
			} else if strings.HasPrefix(c.Text, "//go:") || strings.HasPrefix(c.Text, "// +build") {
				return nil, rep, fmt.Errorf("directive %q in a file that needs rewriting: not supported", c.Text)
			}
		}
	}
	for _, imp := range f.Imports {
		if imp.Path.Value == `"C"` {
			return nil, rep, fmt.Errorf("cgo file needs rewriting: not supported")
		}
	}
	f.Comments = nil
	f.Doc = nil
	stripDocs(f)

	changed := false
	needVsync := false
	needVmap := false
	for _, imp := range f.Imports {
		switch imp.Path.Value {
		case `"sync"`:
			if imp.Name == nil {
				imp.Name = ast.NewIdent("sync")
			}
			imp.Path = &ast.BasicLit{Kind: token.STRING, Value: strconv.Quote(vsyncPath)}
			rep.Sync, changed = true, true
		case `"sync/atomic"`:
			if imp.Name == nil {
				imp.Name = ast.NewIdent("atomic")
			}
			imp.Path = &ast.BasicLit{Kind: token.STRING, Value: strconv.Quote(vatomicPath)}
			rep.Atomic, changed = true, true
		}
	}

	sites := map[string]bool{}
	if doMaps {
		for _, s := range mapSites[rel] {
			sites[s] = true
		}
	}
	siteN := 0

	// rewrite statements inside every block
	var fixList func(list []ast.Stmt) []ast.Stmt
	fixList = func(list []ast.Stmt) []ast.Stmt {
		for i, st := range list {
			switch x := st.(type) {
			case *ast.GoStmt:
				list[i] = goToVsync(x)
				rep.GoStmts++
				needVsync, changed = true, true
			case *ast.LabeledStmt:
				if g, ok := x.Stmt.(*ast.GoStmt); ok {
					x.Stmt = goToVsync(g)
					rep.GoStmts++
					needVsync, changed = true, true
				}
			case *ast.RangeStmt:
				if len(sites) > 0 && x.Tok == token.DEFINE && sites[exprText(fset, x.X)] {
					siteN++
					list[i] = rangeToVmap(x, fmt.Sprintf("%s#%d:%s", rel, siteN, exprText(fset, x.X)))
					rep.MapRanges++
					needVmap, changed = true, true
				}
			}
		}
		return list
	}
	ast.Inspect(f, func(n ast.Node) bool {
		switch x := n.(type) {
		case *ast.BlockStmt:
			x.List = fixList(x.List)
		case *ast.CaseClause:
			x.Body = fixList(x.Body)
		case *ast.CommClause:
			x.Body = fixList(x.Body)
		}
		return true
	})
	// a go statement not directly in a statement list (e.g. `if x { ... } else go f()` cannot
	// occur in Go; bodies are always blocks) - verify none is left
	left := 0
	ast.Inspect(f, func(n ast.Node) bool {
		if _, ok := n.(*ast.GoStmt); ok {
			left++
		}
		return true
	})
	if left > 0 {
		return nil, rep, fmt.Errorf("%d go statement(s) in a position the rewriter does not handle", left)
	}

	// counter hook
	for _, d := range f.Decls {
		fd, ok := d.(*ast.FuncDecl)
		if !ok || fd.Name.Name != "parseModule" || fd.Recv == nil || len(fd.Recv.List) != 1 || fd.Body == nil {
			continue
		}
		st, ok := fd.Recv.List[0].Type.(*ast.StarExpr)
		if !ok {
			continue
		}
		if id, ok := st.X.(*ast.Ident); !ok || id.Name != "Pipeline" {
			continue
		}
		var arg ast.Expr = &ast.BasicLit{Kind: token.STRING, Value: `"parseModule:"`}
		for _, p := range fd.Type.Params.List {
			if id, ok := p.Type.(*ast.Ident); ok && id.Name == "string" && len(p.Names) > 0 && p.Names[0].Name != "_" {
				arg = &ast.BinaryExpr{X: arg, Op: token.ADD, Y: ast.NewIdent(p.Names[0].Name)}
				break
			}
		}
		call := &ast.ExprStmt{X: &ast.CallExpr{Fun: &ast.SelectorExpr{X: ast.NewIdent("vsync"), Sel: ast.NewIdent("Count")}, Args: []ast.Expr{arg}}}
		fd.Body.List = append([]ast.Stmt{call}, fd.Body.List...)
		rep.CountHooks++
		needVsync, changed = true, true
	}

	if !changed {
		return nil, rep, nil
	}
	if needVsync {
		addImport(f, "vsync", vsyncPath)
	}
	if needVmap {
		addImport(f, "vmap", vmapPath)
	}
	var buf bytes.Buffer
	for _, l := range buildLines {
		buf.WriteString(l + "\n\n")
	}
	buf.WriteString("// Code generated by /verif/tools/rewriter from " + rel + "; DO NOT EDIT.\n\n")
	if err := printer.Fprint(&buf, token.NewFileSet(), f); err != nil {
		return nil, rep, err
	}
	outb, err := format.Source(buf.Bytes())
	if err != nil {
		return nil, rep, fmt.Errorf("rewritten file does not parse: %v", err)
	}
	return outb, rep, nil
}

func stripDocs(f *ast.File) {
	ast.Inspect(f, func(n ast.Node) bool {
		switch x := n.(type) {
		case *ast.GenDecl:
			x.Doc = nil
		case *ast.FuncDecl:
			x.Doc = nil
		case *ast.Field:
			x.Doc, x.Comment = nil, nil
		case *ast.ValueSpec:
			x.Doc, x.Comment = nil, nil
		case *ast.TypeSpec:
			x.Doc, x.Comment = nil, nil
		case *ast.ImportSpec:
			x.Doc, x.Comment = nil, nil
		}
		return true
	})
}

func addImport(f *ast.File, name, path string) {
	spec := &ast.ImportSpec{Name: ast.NewIdent(name), Path: &ast.BasicLit{Kind: token.STRING, Value: strconv.Quote(path)}}
	for _, d := range f.Decls {
		if gd, ok := d.(*ast.GenDecl); ok && gd.Tok == token.IMPORT {
			gd.Specs = append(gd.Specs, spec)
			if len(gd.Specs) > 1 && !gd.Lparen.IsValid() {
				gd.Lparen = gd.Pos()
				gd.Rparen = gd.End()
			}
			f.Imports = append(f.Imports, spec)
			return
		}
	}
	gd := &ast.GenDecl{Tok: token.IMPORT, Specs: []ast.Spec{spec}}
	f.Decls = append([]ast.Decl{gd}, f.Decls...)
	f.Imports = append(f.Imports, spec)
}

// goToVsync: go CALL -> { bind function value and arguments now; vsync.Go(func(){ CALL' }) }
func goToVsync(g *ast.GoStmt) ast.Stmt {
	call := g.Call
	var pre []ast.Stmt
	nc := &ast.CallExpr{Fun: call.Fun, Ellipsis: call.Ellipsis}
	switch fn := call.Fun.(type) {
	case *ast.FuncLit:
		// evaluated inside; a function literal has no evaluation side effects
	case *ast.Ident:
		if !builtins[fn.Name] {
			pre = append(pre, &ast.AssignStmt{Lhs: []ast.Expr{ast.NewIdent("_vf")}, Tok: token.DEFINE, Rhs: []ast.Expr{call.Fun}})
			nc.Fun = ast.NewIdent("_vf")
		}
	default:
		pre = append(pre, &ast.AssignStmt{Lhs: []ast.Expr{ast.NewIdent("_vf")}, Tok: token.DEFINE, Rhs: []ast.Expr{call.Fun}})
		nc.Fun = ast.NewIdent("_vf")
	}
	for i, a := range call.Args {
		if _, ok := a.(*ast.BasicLit); ok {
			nc.Args = append(nc.Args, a)
			continue
		}
		v := ast.NewIdent(fmt.Sprintf("_va%d", i))
		pre = append(pre, &ast.AssignStmt{Lhs: []ast.Expr{v}, Tok: token.DEFINE, Rhs: []ast.Expr{a}})
		nc.Args = append(nc.Args, v)
	}
	if nc.Ellipsis.IsValid() {
		nc.Ellipsis = token.Pos(1)
	}
	body := &ast.BlockStmt{List: []ast.Stmt{&ast.ExprStmt{X: nc}}}
	goCall := &ast.ExprStmt{X: &ast.CallExpr{
		Fun:  &ast.SelectorExpr{X: ast.NewIdent("vsync"), Sel: ast.NewIdent("Go")},
		Args: []ast.Expr{&ast.FuncLit{Type: &ast.FuncType{Params: &ast.FieldList{}}, Body: body}},
	}}
	if len(pre) == 0 {
		return goCall
	}
	return &ast.BlockStmt{List: append(pre, goCall)}
}

// rangeToVmap: for k, v := range M { body } ->
//
//	for _, k := range vmap.Keys(M, "site") { v := M[k]; body }
//
// (M is evaluated again per iteration; the listed sites are plain field selections.)
func rangeToVmap(r *ast.RangeStmt, site string) ast.Stmt {
	key := r.Key
	if key == nil {
		key = ast.NewIdent("_vk")
	}
	if id, ok := key.(*ast.Ident); ok && id.Name == "_" {
		key = ast.NewIdent("_vk")
	}
	body := r.Body
	if r.Value != nil {
		if id, ok := r.Value.(*ast.Ident); !ok || id.Name != "_" {
			as := &ast.AssignStmt{Lhs: []ast.Expr{r.Value}, Tok: token.DEFINE, Rhs: []ast.Expr{&ast.IndexExpr{X: r.X, Index: key}}}
			body = &ast.BlockStmt{List: append([]ast.Stmt{as}, r.Body.List...)}
		}
	}
	// keep `key` "used" even when the body ignores it
	use := &ast.AssignStmt{Lhs: []ast.Expr{ast.NewIdent("_")}, Tok: token.ASSIGN, Rhs: []ast.Expr{key}}
	body = &ast.BlockStmt{List: append([]ast.Stmt{use}, body.List...)}
	return &ast.RangeStmt{
		Key: ast.NewIdent("_"), Value: key, Tok: token.DEFINE,
		X: &ast.CallExpr{Fun: &ast.SelectorExpr{X: ast.NewIdent("vmap"), Sel: ast.NewIdent("Keys")},
			Args: []ast.Expr{r.X, &ast.BasicLit{Kind: token.STRING, Value: strconv.Quote(site)}}},
		Body: body,
	}
}
