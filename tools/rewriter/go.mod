module rewriter

go 1.23
