#!/usr/bin/env python3
"""Regenerates the generated blocks of DESIGN.md: repaired defects and open findings (from
findings/known.jsonl) and the seeded-change detection table (from seeded/*/meta.json +
detection.json)."""
import json, os, re, glob
root = os.path.join(os.path.dirname(os.path.abspath(__file__)), '..')
design = open(os.path.join(root, 'DESIGN.md')).read()
fixed, open_f = [], []
for l in open(os.path.join(root, 'findings/known.jsonl')):
    l = l.strip()
    if l.startswith('fixed:'):
        m = re.match(r'fixed: property=(C\d+) (\S+) (.*)', l)
        if m: fixed.append(m.groups())
    elif l.startswith('{'):
        d = json.loads(l); n = 0
        cf = d.get('cases_file')
        if cf and os.path.exists(os.path.join(root, 'findings', cf)): n = sum(1 for _ in open(os.path.join(root, 'findings', cf)))
        open_f.append((d['property'], d['finding'], d['title'], n or len(d.get('cases', []))))
def esc(t): return t.replace("|", "\\|").replace("\n", " ")
fx = ['| property | commit | what failed |', '|---|---|---|'] + ['| %s | `%s` | %s |' % (p, c, esc(t)) for p, c, t in sorted(fixed)]
of = ['| property | finding | what fails | cases |', '|---|---|---|---|'] + ['| %s | %s | %s | %d |' % (p, f, esc(t), n) for p, f, t, n in sorted(open_f)]
rows = ['| seeded change | property | what it needs to manifest | check run | detected | first violating case |', '|---|---|---|---|---|---|']
for d in sorted(glob.glob(os.path.join(root, 'seeded', '*'))):
    mf = os.path.join(d, 'meta.json')
    if not os.path.exists(mf): continue
    m = json.load(open(mf)); det = {}
    if os.path.exists(os.path.join(d, 'detection.json')): det = json.load(open(os.path.join(d, 'detection.json')))
    need = esc((m.get('needs_to_manifest') or '')[:160])
    verdict = ('yes' if det.get('detected') else 'NO') if det else 'not run yet'
    if det and det.get('detected') and any(h.get('detected') is False for h in det.get('history', [])):
        verdict = 'yes (missed at first; check strengthened)'
    if det and det.get('exit_code') == 2:
        verdict = 'harness error'
    rows.append(f"| {os.path.basename(d)} | {m.get('property')} | {need} | {det.get('check','-')} {det.get('tier','')} | {verdict} | {(det.get('first_violation_case') or '')[:90]} |")
def put(tag, lines):
    global design
    b, e = f'<!-- {tag}:BEGIN -->', f'<!-- {tag}:END -->'
    block = b + '\n' + '\n'.join(lines) + '\n' + e
    if b in design: design = re.sub(re.escape(b) + '.*?' + re.escape(e), lambda _: block, design, flags=re.S)
    else: design += '\n' + block + '\n'
put('FIXES', fx); put('FINDINGS', of); put('SEEDED', rows)
open(os.path.join(root, 'DESIGN.md'), 'w').write(design)
print(len(fixed), 'fixes;', len(open_f), 'open findings;', len(rows) - 2, 'seeded')
