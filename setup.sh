#!/bin/bash
# Run once after a fresh restore (offline). Pre-warms the Go build cache for /repo and the
# overlay-injected check program; builds the standalone tools under /verif/bin.
set -u
export GOFLAGS=-mod=mod GOPROXY=off
unset GOTOOLCHAIN GOSUMDB 2>/dev/null || true
cd "$(dirname "$0")"
VERIF_DIR="$(pwd)"
mkdir -p bin evidence replays
W=$(mktemp -d /dev/shm/verif.setup.XXXXXX 2>/dev/null || mktemp -d)
trap 'rm -rf "$W"' EXIT
export CGO_CFLAGS="${CGO_CFLAGS:-} -DVERIF_SRC_HASH=$(cat /repo/qbe/*.c /repo/qbe/*.h /repo/qbe/*/*.c /repo/qbe/*/*.h 2>/dev/null | sha1sum | cut -c1-16)"
python3 tools/mkoverlay.py "$VERIF_DIR/src" /repo "$W/overlay.json" || exit 1
(cd /repo && go build -o "$W/ferret" . && go build -tags verif -overlay "$W/overlay.json" -o "$W/vcheck" ./verifh/check) || exit 1
if [ -d tools/rewriter ]; then
  (cd tools/rewriter && GOFLAGS=-mod=mod go build -o "$VERIF_DIR/bin/rewriter" .) || exit 1
fi
echo "setup ok"
